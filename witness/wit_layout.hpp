// Compile-time walk over a server's service / characteristic handle mappings, using the repository's own
// constexpr metaprograms (service_index_mapping, characteristic_index_mapping, service_handles).
#ifndef VERIF_WIT_LAYOUT_HPP
#define VERIF_WIT_LAYOUT_HPP
#include "inst_att_decls.hpp"

namespace wit {
namespace layout {
    namespace d = bluetoe::details;

    // ---- handles a characteristic pins with attribute_handle< H > (declaration H, value H + 1, third attribute H + 2) or attribute_handles< D, V, C >
    template < class... O > struct pinned { static constexpr std::uint16_t decl = 0, value = 0, third = 0; };
    template < class T, class... R > struct pinned< T, R... > : pinned< R... > {};
    template < std::uint16_t H, class... R >
    struct pinned< b::attribute_handle< H >, R... > { static constexpr std::uint16_t decl = H, value = H + 1, third = H + 2; };
    template < std::uint16_t D, std::uint16_t V, std::uint16_t C, class... R >
    struct pinned< b::attribute_handles< D, V, C >, R... > { static constexpr std::uint16_t decl = D, value = V, third = C; };

    // ---- characteristics of one service
    template < std::uint16_t H, std::uint16_t I, class Chars > struct chars;
    template < std::uint16_t H, std::uint16_t I >
    struct chars< H, I, std::tuple<> >
    {
        static constexpr bool          ok         = true;
        static constexpr std::uint16_t end_handle = H;
        static constexpr std::uint16_t end_index  = I;
    };
    template < std::uint16_t H, std::uint16_t I, class... O, class... Cs >
    struct chars< H, I, std::tuple< b::characteristic< O... >, Cs... > >
    {
        using c    = b::characteristic< O... >;
        using m    = d::characteristic_index_mapping< H, I, O... >;
        using hs   = typename m::attribute_handles_t;
        using next = chars< m::end_handle, m::end_index, std::tuple< Cs... > >;
        static constexpr bool this_ok =
               hs::declaration_handle != 0
            && hs::declaration_handle >= H                                  // increasing over the previous attribute
            && hs::value_handle > hs::declaration_handle                    // the value follows its declaration
            && ( c::number_of_attributes == 2 || hs::cccd_handle > hs::value_handle )
            && ( pinned< O... >::decl  == 0 || hs::declaration_handle == pinned< O... >::decl )      // fixed handles honoured
            && ( pinned< O... >::value == 0 || hs::value_handle == pinned< O... >::value )
            && ( pinned< O... >::third == 0 || c::number_of_attributes == 2 || hs::cccd_handle == pinned< O... >::third )
            && ( pinned< O... >::decl  != 0 || hs::declaration_handle == H )                          // no gap without a fixed handle
            && m::end_index == I + c::number_of_attributes
            && m::end_handle > hs::value_handle
            && ( c::number_of_attributes == 2 || m::end_handle >= hs::cccd_handle + ( c::number_of_attributes - 2 ) );
        static constexpr bool          ok         = this_ok && next::ok;
        static constexpr std::uint16_t end_handle = next::end_handle;
        static constexpr std::uint16_t end_index  = next::end_index;
    };

    // ---- services of a server
    template < std::uint16_t H, std::uint16_t I, class Services > struct services;
    template < std::uint16_t H, std::uint16_t I >
    struct services< H, I, std::tuple<> >
    {
        static constexpr bool        ok        = true;
        static constexpr std::size_t end_index = I;
    };
    template < std::uint16_t H, std::uint16_t I, class... O, class... Ss >
    struct services< H, I, std::tuple< b::service< O... >, Ss... > >
    {
        using s    = b::service< O... >;
        using m    = d::service_index_mapping< H, I, O... >;
        using cs   = chars< m::service_handle + s::number_of_service_attributes, I + s::number_of_service_attributes, typename s::characteristics >;
        using next = services< m::end_handle, m::end_index, std::tuple< Ss... > >;
        static constexpr bool this_ok =
               m::service_handle != 0
            && m::service_handle >= H
            && m::end_index == I + s::number_of_attributes
            && m::end_handle - m::service_handle >= s::number_of_attributes     // every attribute gets an own handle
            && cs::ok
            && cs::end_index == m::end_index                                    // characteristics fill the service exactly (include declarations accounted for)
            && cs::end_handle == m::end_handle
            // the run-time mapping of this service starts its characteristics where this walk does (handle and index behind all service / include declarations)
            && std::is_base_of< d::interate_characteristic_index_mappings< m::service_handle + s::number_of_service_attributes, I + s::number_of_service_attributes, typename s::characteristics >, m >::value;
        static constexpr bool        ok        = this_ok && next::ok;
        static constexpr std::size_t end_index = next::end_index;
    };

    template < class Server >
    struct server_ok
    {
        using w = services< 1u, 0u, typename Server::services >;
        static constexpr bool value = w::ok;
    };

    // value of an include declaration == real first / last handle of the included service
    template < class Server, class Included, std::uint16_t H, class Services > struct find_service;
    template < class Server, class Included, std::uint16_t H >
    struct find_service< Server, Included, H, std::tuple<> > { static constexpr bool found = false; static constexpr std::uint16_t first = 0, last = 0; };
    template < class Server, class Included, std::uint16_t H, class... O, class... Ss >
    struct find_service< Server, Included, H, std::tuple< b::service< O... >, Ss... > >
    {
        using m    = d::service_index_mapping< H, 0, O... >;
        using next = find_service< Server, Included, m::end_handle, std::tuple< Ss... > >;
        static constexpr bool is_it = std::is_same< b::service< O... >, Included >::value;
        static constexpr bool found = is_it || next::found;
        static constexpr std::uint16_t first = is_it ? m::service_handle : next::first;
        static constexpr std::uint16_t last  = is_it ? static_cast< std::uint16_t >( m::end_handle - 1 ) : next::last;
    };
    template < class Server, class Included >
    struct include_ok
    {
        using real = find_service< Server, Included, 1u, typename Server::services >;
        using decl = d::service_handles< typename Server::services, Included >;
        static constexpr bool value = real::found && decl::service_attribute_handle == real::first && decl::end_service_handle == real::last;
    };
}
}
#endif
