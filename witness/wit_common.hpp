// Common prelude of the witness / instantiation units. Parsed only (never linked, never run).
#ifndef VERIF_WIT_COMMON_HPP
#define VERIF_WIT_COMMON_HPP

#include <iterator>
#include <tuple>
#include <array>
#include <cstdint>
#include <cstddef>
#include <cstring>
#include <algorithm>
#include <utility>
#include <type_traits>

#include <bluetoe/server.hpp>
#include <bluetoe/service.hpp>
#include <bluetoe/characteristic.hpp>
#include <bluetoe/characteristic_value.hpp>
#include <bluetoe/gatt_options.hpp>
#include <bluetoe/encryption.hpp>
#include <bluetoe/outgoing_priority.hpp>
#include <bluetoe/write_queue.hpp>
#include <bluetoe/link_state.hpp>

namespace wit {
    namespace b = bluetoe;

    // forces instantiation of the request handlers / output path of a server type
    template < class Server >
    void drive()
    {
        using conn_t = typename Server::template channel_data_t< b::details::link_state >;
        static Server  srv;
        static conn_t  con;
        std::uint8_t   in[ 64 ]  = { 0 };
        std::uint8_t   out[ 64 ] = { 0 };
        std::size_t    out_size  = sizeof( out );

        srv.l2cap_input( in, sizeof( in ), out, out_size, con );
        out_size = sizeof( out );
        srv.l2cap_output( out, out_size, con );
        srv.advertising_data( out, sizeof( out ) );
        srv.scan_response_data( out, sizeof( out ) );
        srv.client_disconnected( con );
    }

    template < std::uint16_t U, class... O >
    using chr16 = b::characteristic< b::characteristic_uuid16< U >, O... >;

    template < std::uint16_t U, class... O >
    using svc16 = b::service< b::service_uuid16< U >, O... >;
}

#endif
