// Instantiation witness for C05: the low bit of every characteristic UUID states whether the characteristic
// requires encryption according to the documented rule (innermost explicit setting wins, default off).
// The rule module compares it with the RequiresEncryption template argument the repository instantiates.
#include "wit_common.hpp"
namespace wit {
std::uint8_t e0, e1, e2, e3, e4, e5, e6, e7, e8, e9, e10, e11;

using enc_a = b::server<                                   // server: default
    svc16< 0xE000,                                         // service: default
        chr16< 0xE000, b::bind_characteristic_value< std::uint8_t, &e0 >, b::notify >,
        chr16< 0xE001, b::bind_characteristic_value< std::uint8_t, &e1 >, b::requires_encryption, b::indicate >,
        chr16< 0xE002, b::bind_characteristic_value< std::uint8_t, &e2 >, b::no_encryption_required >,
        chr16< 0xE004, b::bind_characteristic_value< std::uint8_t, &e3 >, b::may_require_encryption > >,
    svc16< 0xE100, b::requires_encryption,                 // service: requires
        chr16< 0xE101, b::bind_characteristic_value< std::uint8_t, &e4 >, b::notify >,
        chr16< 0xE102, b::bind_characteristic_value< std::uint8_t, &e5 >, b::no_encryption_required, b::notify >,
        chr16< 0xE103, b::fixed_uint8_value< 1 > >,
        chr16< 0xE105, b::bind_characteristic_value< std::uint8_t, &e6 >, b::may_require_encryption > >,
    b::no_gap_service_for_gatt_servers >;

using enc_b = b::server< b::requires_encryption,           // server: requires
    svc16< 0xE201,
        chr16< 0xE201, b::bind_characteristic_value< std::uint8_t, &e7 >, b::notify >,
        chr16< 0xE202, b::bind_characteristic_value< std::uint8_t, &e8 >, b::no_encryption_required, b::indicate > >,
    svc16< 0xE300, b::no_encryption_required,              // service: explicitly off
        chr16< 0xE300, b::bind_characteristic_value< std::uint8_t, &e9 >, b::notify >,
        chr16< 0xE301, b::bind_characteristic_value< std::uint8_t, &e10 >, b::requires_encryption, b::notify > >,
    svc16< 0xE401, b::may_require_encryption,              // service: may -> inherits server
        chr16< 0xE401, b::bind_characteristic_value< std::uint8_t, &e11 >, b::notify > >,
    b::no_gap_service_for_gatt_servers >;

void instantiate()
{
    drive< enc_a >();
    drive< enc_b >();
}
}
