#!/usr/bin/env python3
"""Self-test of the checkers: every mutant in selftest/mutants.json is applied to a scratch copy of /repo's
sources (outside /repo and /verif, removed afterwards) and the property's quick check must
  * exit 1 with a VIOLATION line whose report names the expected rule (kind 'break'), or
  * stay silent (exit 0) for behaviour-preserving edits (kind 'neutral').
usage: selftest/run.py [Cxx ...] [-j N]
"""
import os, sys, json, subprocess, shutil, tempfile, argparse
from concurrent.futures import ThreadPoolExecutor

HERE = os.path.dirname(os.path.abspath(__file__))
VERIF = os.path.dirname(HERE)
REPO = '/repo'


def run_mutant(m):
    tmp = tempfile.mkdtemp(prefix='verif_mut_', dir='/tmp')
    try:
        dst = os.path.join(tmp, 'repo')
        subprocess.run(['rsync', '-a', '--exclude', '_build', '--exclude', '.git', REPO + '/', dst + '/'], check=True)
        for e in m['edits']:
            p = os.path.join(dst, e['file'])
            s = open(p).read()
            n = s.count(e['old'])
            if (e.get('count', 1) == -1 and n == 0) or (e.get('count', 1) != -1 and n != e.get('count', 1)):
                return m, 'STALE', 'pattern occurs %d times in %s (expected %d)' % (n, e['file'], e.get('count', 1))
            s = s.replace(e['old'], e['new'])
            open(p, 'w').write(s)
        env = dict(os.environ, BT_REPO=dst, BT_CACHE=os.path.join(tmp, 'cache'), BT_EVIDENCE=os.path.join(tmp, 'evidence'), BT_JOBS='4')
        r = subprocess.run([os.path.join(VERIF, 'check'), m['property'], '--tier', 'quick'], capture_output=True, text=True, env=env, cwd=VERIF)
        out = r.stdout + r.stderr
        if m.get('kind', 'break') == 'neutral':
            ok = r.returncode == 0
            return m, 'OK' if ok else 'FALSE-ALARM', '' if ok else out[-600:]
        if r.returncode == 1 and 'VIOLATION property=' + m['property'] in out and ('rule ' + m['rule'] + ' violated') in out:
            return m, 'OK', ''
        return m, 'MISSED' if r.returncode == 0 else 'WRONG(%d)' % r.returncode, out[-800:]
    finally:
        shutil.rmtree(tmp, ignore_errors=True)


def run_seed(d):
    """a confirmed seeded change (seeded/<id>/patch.diff): the property's check must report a violation"""
    meta = json.load(open(os.path.join(d, 'meta.json')))
    m = {'id': 'seeded/' + os.path.basename(d), 'property': meta['property'], 'rule': '(any)'}
    tmp = tempfile.mkdtemp(prefix='verif_mut_', dir='/tmp')
    try:
        dst = os.path.join(tmp, 'repo')
        subprocess.run(['rsync', '-a', '--exclude', '_build', '--exclude', '.git', REPO + '/', dst + '/'], check=True)
        r = subprocess.run(['patch', '-p1', '-s', '-d', dst, '-i', os.path.join(d, 'patch.diff')], capture_output=True, text=True)
        if r.returncode != 0:
            return m, 'STALE', 'patch does not apply: ' + (r.stdout + r.stderr)[-300:]
        env = dict(os.environ, BT_REPO=dst, BT_CACHE=os.path.join(tmp, 'cache'), BT_EVIDENCE=os.path.join(tmp, 'evidence'), BT_JOBS='4')
        r = subprocess.run([os.path.join(VERIF, 'check'), m['property'], '--tier', 'quick'], capture_output=True, text=True, env=env, cwd=VERIF)
        out = r.stdout + r.stderr
        if meta.get('expected') == 'not-claimed':
            return m, 'OK', ''
        if r.returncode == 1 and 'VIOLATION property=' + m['property'] in out:
            return m, 'OK', ''
        und = json.load(open(os.path.join(VERIF, 'seeded', 'UNDECIDED.json'))) if os.path.exists(os.path.join(VERIF, 'seeded', 'UNDECIDED.json')) else {}
        if r.returncode == 2 and os.path.basename(d) in und and 'VIOLATION' not in out:
            return m, 'OK', ''      # listed: embedded in a larger edit, gated as `idiom not recognised`
        return m, 'MISSED' if r.returncode == 0 else 'WRONG(%d)' % r.returncode, out[-800:]
    finally:
        shutil.rmtree(tmp, ignore_errors=True)


def run_neutral(d):
    """a confirmed behaviour-preserving refactoring (seeded_neutral/<id>/patch.diff): the check must not report a violation (exit 0, or exit 2 = idiom not recognised)"""
    meta = json.load(open(os.path.join(d, 'meta.json')))
    m = {'id': 'seeded_neutral/' + os.path.basename(d), 'property': meta['property'], 'rule': 'neutral'}
    tmp = tempfile.mkdtemp(prefix='verif_mut_', dir='/tmp')
    try:
        dst = os.path.join(tmp, 'repo')
        subprocess.run(['rsync', '-a', '--exclude', '_build', '--exclude', '.git', REPO + '/', dst + '/'], check=True)
        r = subprocess.run(['patch', '-p1', '-s', '-d', dst, '-i', os.path.join(d, 'patch.diff')], capture_output=True, text=True)
        if r.returncode != 0:
            return m, 'STALE', 'patch does not apply: ' + (r.stdout + r.stderr)[-300:]
        env = dict(os.environ, BT_REPO=dst, BT_CACHE=os.path.join(tmp, 'cache'), BT_EVIDENCE=os.path.join(tmp, 'evidence'), BT_JOBS='4')
        r = subprocess.run([os.path.join(VERIF, 'check'), m['property'], '--tier', 'quick'], capture_output=True, text=True, env=env, cwd=VERIF)
        out = r.stdout + r.stderr
        if r.returncode in (0, 2) and 'VIOLATION' not in out:
            return m, 'OK', 'exit %d' % r.returncode
        return m, 'FALSE-ALARM', out[-800:]
    finally:
        shutil.rmtree(tmp, ignore_errors=True)


def main():
    ap = argparse.ArgumentParser()
    ap.add_argument('props', nargs='*')
    ap.add_argument('-j', type=int, default=4)
    ap.add_argument('--id')
    a = ap.parse_args()
    muts = json.load(open(os.path.join(HERE, 'mutants.json')))
    if a.props:
        muts = [m for m in muts if m['property'] in a.props]
    if a.id:
        muts = [m for m in muts if m['id'] == a.id]
    bad = 0
    with ThreadPoolExecutor(max_workers=a.j) as ex:
        for m, st, info in ex.map(run_mutant, muts):
            print('%-8s %-4s %-40s %s' % (st, m['property'], m['id'], m.get('rule', 'neutral')))
            if st != 'OK':
                bad += 1
                print('    ' + info.replace('\n', '\n    '))
    seeds = sorted(os.path.join(VERIF, 'seeded', x) for x in os.listdir(os.path.join(VERIF, 'seeded'))) if os.path.isdir(os.path.join(VERIF, 'seeded')) and not a.id else []
    seeds = [d for d in seeds if os.path.exists(os.path.join(d, 'patch.diff')) and (not a.props or json.load(open(os.path.join(d, 'meta.json')))['property'] in a.props)]
    with ThreadPoolExecutor(max_workers=a.j) as ex:
        for m, st, info in ex.map(run_seed, seeds):
            print('%-8s %-4s %-40s %s' % (st, m['property'], m['id'], 'seeded change'))
            if st != 'OK':
                bad += 1
                print('    ' + info.replace('\n', '\n    '))
    nd = os.path.join(VERIF, 'seeded_neutral')
    neut = sorted(os.path.join(nd, x) for x in os.listdir(nd)) if os.path.isdir(nd) and not a.id else []
    neut = [d for d in neut if os.path.exists(os.path.join(d, 'patch.diff')) and (not a.props or json.load(open(os.path.join(d, 'meta.json')))['property'] in a.props)]
    n0 = 0
    with ThreadPoolExecutor(max_workers=a.j) as ex:
        for m, st, info in ex.map(run_neutral, neut):
            print('%-8s %-4s %-40s %s' % (st, m['property'], m['id'], 'refactoring ' + (info if st == 'OK' else '')))
            n0 += 1 if info == 'exit 0' else 0
            if st != 'OK':
                bad += 1
                print('    ' + info.replace('\n', '\n    '))
    print('%d mutants + %d seeded changes + %d refactorings (%d of them with a full verdict), %d not as expected' % (len(muts), len(seeds), len(neut), n0, bad))
    sys.exit(1 if bad else 0)


if __name__ == '__main__':
    main()
